import VhostModel.Spec.RingAutomaton
import VhostModel.Model.RingReg
import VhostModel.Lemmas.RingReg
import VhostModel.Lemmas.RingRegRefine

/-!
# C11 — ring state follows the protocol; kicks are dispatched iff the ring is started and enabled

`Spec.RingAutomaton` is the automaton of the property statement (started by receipt of a kick descriptor,
stopped by GET_VRING_BASE, enabled for all rings by a SET_FEATURES without bit 30, otherwise by
SET_VRING_ENABLE(1), disabled by SET_VRING_ENABLE(0) / RESET_DEVICE; pending kicks on the current descriptor
of an active ring are delivered, others retained).  `Model.RingReg` is `handler.rs` / `vring.rs` /
`event_loop.rs` with the epoll/eventfd rules of DESIGN §6; `Model.RingReg.init n base false` is the tree with
`fix-c11-rekick` applied, `… true` the pinned rule of `set_vring_kick`.

All theorems quantify over **every** history (list of events: control messages on any ring index, guest
kicks on any descriptor, the front-end closing any descriptor), any number of rings `n`:

* `ring_refines_automaton` — for every history inside the protocol's domain (the automaton's `run` is
  defined: no SET_VRING_ENABLE without negotiated bit 30, no unknown ring index — decision D1 of the Spec)
  the abstraction of the model state *is* the automaton state, and step by step the model's replies are the
  owed ones and the set of handler calls is the set the automaton delivers, each ring at most once
  (commuting-step lemmas `control_refines`, `deliver_refines`);
* `registered_iff_active` — for every history whatsoever (also outside the domain): a ring has a registration
  in the worker's epoll set iff it is ready ∧ enabled ∧ has a kick descriptor, and the registered descriptor
  is its *current* kick descriptor (no stale registrations);
* `kick_dispatch_iff` — in every reachable state a guest kick on a ring's current descriptor leads to a handler
  call for that ring in that step iff the ring is started and enabled;
* `inactive_kicks_retained` — whatever event happens, a ring that is inactive after it got no handler call and
  the counter of its descriptor was not consumed (a guest kick added exactly one);
* `delivered_on_activation` — an event after which a ring with retained kicks is active delivers them in the
  same step (handler called, counter consumed);
* `worker_never_stops` — the worker never hits `EAGAIN` (it reads only descriptors it was woken for);
* `rekick_not_registered_counterexample`, `rekick_kick_lost_counterexample`,
  `rekick_stale_registration_counterexample` — F-C11-rekick: with the pinned rule, after
  `SET_FEATURES(no bit 30) · SET_VRING_KICK(0) · SET_VRING_KICK(0)` ring 0 is ready, enabled and has descriptor 1,
  but descriptor 1 is not registered while the closed descriptor 0 still is; a guest kick on the current
  descriptor is not dispatched (the automaton delivers it), and a guest kick on the replaced descriptor makes
  the worker read the new descriptor's empty counter and stop.

Modelled, not verified: level-triggered epoll, eventfd counters, registration removed only when the last
reference to the file is closed, non-blocking kick descriptors, fresh descriptor per message, one worker for
all rings.  Helper lemmas: `Lemmas/Vring.lean` (invariant, drain), `Lemmas/VringRefine.lean` (abstraction).
-/

namespace Props.C11
open Model.RingReg Lemmas.RingReg
open Spec.RingAutomaton (Evt Msg)

/-- a model output is the automaton's output: the owed reply, the same set of rings, none twice -/
def OutMatches (o : Out) (o' : Spec.RingAutomaton.Out) : Prop :=
  absReply o.reply = some o'.reply ∧ (∀ r, r ∈ o.dispatched ↔ r ∈ o'.dispatched) ∧ o.dispatched.Nodup

/-- pointwise relation of two lists of equal length -/
inductive Forall2 {α β : Type} (R : α → β → Prop) : List α → List β → Prop where
  | nil : Forall2 R [] []
  | cons {a b l l'} : R a b → Forall2 R l l' → Forall2 R (a :: l) (b :: l')

/-- one step commutes with the abstraction -/
theorem step_refines {s : St} (h : Inv s) (hc : s.conn = true) (m : Msg)
    (t : Spec.RingAutomaton.St) (o' : Spec.RingAutomaton.Out)
    (hs : Spec.RingAutomaton.step (abs s) m = some (t, o')) :
    abs (step s m).1 = t ∧ OutMatches (step s m).2 o' ∧ (step s m).1.conn = true := by
  unfold Spec.RingAutomaton.step at hs
  cases hctl : Spec.RingAutomaton.control (abs s) m with
  | none => simp [hctl] at hs
  | some p =>
    obtain ⟨t1, rep⟩ := p
    simp only [hctl, Option.some.injEq, Prod.mk.injEq] at hs
    obtain ⟨ht, ho⟩ := hs
    obtain ⟨ha, hr, hconn⟩ := control_refines h hc m t1 rep hctl
    have hci := control_inv h m
    obtain ⟨d1, d2, d3⟩ := deliver_refines hci 15
    have hq : (step s m).1 = (quiesce 16 (Model.RingReg.control s m).1).1 := rfl
    have hq2 : (step s m).2 = ⟨(Model.RingReg.control s m).2, (quiesce 16 (Model.RingReg.control s m).1).2⟩ := rfl
    refine ⟨?_, ⟨?_, ?_, ?_⟩, ?_⟩
    · rw [hq, d1, ha, ht]
    · rw [hq2, ← ho]; exact hr
    · intro r; rw [hq2, ← ho]; simp only; rw [d2, ha]
    · rw [hq2]; exact d3
    · rw [hq, quiesce_conn hci 15]; exact hconn

theorem run_refines {s : St} (h : Inv s) (hc : s.conn = true) (ms : List Msg) :
    ∀ (t : Spec.RingAutomaton.St) (outs : List Spec.RingAutomaton.Out),
      Spec.RingAutomaton.run (abs s) ms = some (t, outs) →
      abs (run s ms).1 = t ∧ Forall2 OutMatches (run s ms).2 outs := by
  induction ms generalizing s with
  | nil =>
    intro t outs hs
    simp only [Spec.RingAutomaton.run, Option.some.injEq, Prod.mk.injEq] at hs
    obtain ⟨ht, ho⟩ := hs
    subst ht; subst ho
    exact ⟨rfl, Forall2.nil⟩
  | cons m ms ih =>
    intro t outs hs
    simp only [Spec.RingAutomaton.run] at hs
    cases hst : Spec.RingAutomaton.step (abs s) m with
    | none => simp [hst] at hs
    | some p =>
      obtain ⟨t1, o1⟩ := p
      simp only [hst] at hs
      obtain ⟨ha, hom, hconn⟩ := step_refines h hc m t1 o1 hst
      cases hrun : Spec.RingAutomaton.run t1 ms with
      | none => simp [hrun] at hs
      | some q =>
        obtain ⟨t2, os⟩ := q
        simp only [hrun, Option.some.injEq, Prod.mk.injEq] at hs
        obtain ⟨ht, ho⟩ := hs
        subst ht; subst ho
        rw [← ha] at hrun
        obtain ⟨ih1, ih2⟩ := ih (step_inv h m) hconn t2 os hrun
        exact ⟨ih1, Forall2.cons hom ih2⟩

/-- **Refinement.**  For every history on which the ring automaton is defined, running the model (repaired tree) from
the initial state and abstracting gives exactly the automaton's state, and the observable outputs agree step by step. -/
theorem ring_refines_automaton (n : Nat) (base : Nat → Nat) (hist : List Msg)
    (t : Spec.RingAutomaton.St) (outs : List Spec.RingAutomaton.Out)
    (hs : Spec.RingAutomaton.run (Spec.RingAutomaton.init n base) hist = some (t, outs)) :
    abs (run (init n base false) hist).1 = t ∧
    Forall2 OutMatches (run (init n base false) hist).2 outs :=
  run_refines (init_inv n base) rfl hist t outs hs

/-- the hypothesis is satisfiable by a history that starts, enables, kicks, re-kicks, stops and restarts a ring -/
example : (Spec.RingAutomaton.run (Spec.RingAutomaton.init 2 (fun r => 0x100 + r))
    [.setFeatures true, .setKick 0 true, .guestKick 0, .setEnable 0 true, .setKick 0 true, .guestKick 1,
     .getBase 0, .setKick 0 true, .guestKick 2, .reset, .setFeatures false, .guestKick 2]).map
      (fun p => p.2.map (·.dispatched)) = some [[], [], [], [0], [], [0], [], [], [0], [], [], [0]] := by decide

theorem init_quiet (n : Nat) (base : Nat → Nat) : Quiet (init n base false) := by
  intro e r h; simp [init] at h

/-- the states the repaired model can be in: after some history from the initial state -/
def Reachable (n : Nat) (base : Nat → Nat) (s : St) : Prop := ∃ hist : List Msg, (run (init n base false) hist).1 = s

/-- every state reachable by any history satisfies the invariant and is drained -/
theorem reachable_good {n : Nat} {base : Nat → Nat} {s : St} (hr : Reachable n base s) : Inv s ∧ Quiet s := by
  obtain ⟨hist, rfl⟩ := hr
  exact run_inv (init_inv n base) (init_quiet n base) hist

/-- **Registration.**  After any history (inside or outside the protocol's domain), for every ring: it has a registration
in the worker's epoll set iff it exists, is ready, enabled and has a kick descriptor; and whatever is registered for it is
its current kick descriptor. -/
theorem registered_iff_active (n : Nat) (base : Nat → Nat) (s : St) (hr : Reachable n base s) (r : Nat) :
    ((∃ e, s.reg e = some r) ↔
      (r < s.n ∧ (s.ring r).ready = true ∧ (s.ring r).enabled = true ∧ (s.ring r).kick ≠ none)) ∧
    (∀ e, s.reg e = some r → (s.ring r).kick = some e) := by
  have h := (reachable_good hr).1
  refine ⟨⟨?_, ?_⟩, ?_⟩
  · rintro ⟨e, he⟩
    have hc := (h.reg.reg_iff e r).1 he
    exact ⟨hc.1, hc.2.2.1, hc.2.2.2, by rw [hc.2.1]; simp⟩
  · rintro ⟨h1, h2, h3, h4⟩
    cases hk : (s.ring r).kick with
    | none => exact absurd hk h4
    | some e => exact ⟨e, (h.reg.reg_iff e r).2 ⟨h1, hk, h2, h3⟩⟩
  · intro e he
    exact ((h.reg.reg_iff e r).1 he).2.1

/-- a history after which ring 0 is registered with its second descriptor, ring 1 is not registered -/
example :
    let s := (run (init 2 (fun r => 0x100 + r) false)
      [.setFeatures true, .setKick 0 true, .setEnable 0 true, .setKick 0 true, .setKick 1 true]).1
    s.reg 1 = some 0 ∧ s.reg 0 = none ∧ s.reg 2 = none ∧ (s.ring 0).kick = some 1 ∧ (s.ring 1).kick = some 2 := by decide

/-- **Dispatch iff active.**  In any reachable state, a guest kick on the current kick descriptor `d` of ring `r` (which
the front-end still holds) causes a handler call for ring `r` in that step iff the ring is started and enabled. -/
theorem kick_dispatch_iff (n : Nat) (base : Nat → Nat) (s : St) (hr : Reachable n base s) (r : Nat) (d : Evt)
    (hk : (s.ring r).kick = some d) (hp : s.peerOpen d = true) :
    r ∈ (step s (.guestKick d)).2.dispatched ↔ ((s.ring r).ready = true ∧ (s.ring r).enabled = true) := by
  obtain ⟨h, hq⟩ := reachable_good hr
  have hlt := h.reg.kick_lt r d hk
  obtain ⟨_, hd⟩ := step_spec h (.guestKick d)
  have hctl : (Model.RingReg.control s (.guestKick d)).1 = { s with cnt := Spec.RingAutomaton.upd s.cnt d (s.cnt d + 1) } := by
    simp [Model.RingReg.control, isControl, hlt.1, hp]
  rw [hd r, hctl]
  constructor
  · rintro ⟨d', hr', _⟩
    have hc := (h.reg.reg_iff d' r).1 hr'
    exact ⟨hc.2.2.1, hc.2.2.2⟩
  · rintro ⟨h1, h2⟩
    refine ⟨d, (h.reg.reg_iff d r).2 ⟨hlt.2, hk, h1, h2⟩, ?_⟩
    simp [Spec.RingAutomaton.upd]

example :
    let s := (run (init 2 (fun r => 0x100 + r) false) [.setFeatures false, .setKick 1 true]).1
    (s.ring 1).kick = some 0 ∧ s.peerOpen 0 = true ∧ (step s (.guestKick 0)).2.dispatched = [1] := by decide

/-- **Retention.**  Whatever the event, if afterwards ring `r` still has descriptor `d` and is not started-and-enabled,
then the handler was not called for it in that step and the counter of `d` was not consumed: it is the old value, plus one
if the event was a (possible) guest kick on `d`. -/
theorem inactive_kicks_retained (n : Nat) (base : Nat → Nat) (s : St) (hr : Reachable n base s) (m : Msg) (r : Nat)
    (d : Evt) (hk : ((step s m).1.ring r).kick = some d)
    (hin : ¬ (((step s m).1.ring r).ready = true ∧ ((step s m).1.ring r).enabled = true)) :
    r ∉ (step s m).2.dispatched ∧
    (step s m).1.cnt d = (if m = .guestKick d ∧ d < s.next ∧ s.peerOpen d = true then s.cnt d + 1 else s.cnt d) := by
  obtain ⟨h, _⟩ := reachable_good hr
  have hci := control_inv h m
  obtain ⟨hst, hd⟩ := step_spec h m
  have hring : (step s m).1.ring = (Model.RingReg.control s m).1.ring := by rw [hst]
  rw [hring] at hk hin
  constructor
  · intro hmem
    obtain ⟨d', hr', _⟩ := (hd r).1 hmem
    have hc := (hci.reg.reg_iff d' r).1 hr'
    exact hin ⟨hc.2.2.1, hc.2.2.2⟩
  · have hnone : (Model.RingReg.control s m).1.reg d = none := by
      cases hreg : (Model.RingReg.control s m).1.reg d with
      | none => rfl
      | some r' =>
        exfalso
        have hc := (hci.reg.reg_iff d r').1 hreg
        have := hci.reg.kick_inj r' r d hc.2.1 hk
        subst this
        exact hin ⟨hc.2.2.1, hc.2.2.2⟩
    rw [hst]
    show (if ((Model.RingReg.control s m).1.reg d).isSome then 0 else (Model.RingReg.control s m).1.cnt d) = _
    rw [hnone]
    exact control_cnt h m d

example :
    let s := (run (init 2 (fun r => 0x100 + r) false) [.setFeatures true, .setKick 0 true, .guestKick 0]).1
    ((step s (.guestKick 0)).1.ring 0).kick = some 0 ∧ ((step s (.guestKick 0)).1.ring 0).enabled = false ∧
    (step s (.guestKick 0)).1.cnt 0 = 2 := by decide

/-- **Delivery on activation.**  If ring `r` holds descriptor `d` with retained kicks (`cnt d > 0`) and an event leaves
it started and enabled with the same descriptor, the handler is called for `r` in that very step and the counter is
consumed. -/
theorem delivered_on_activation (n : Nat) (base : Nat → Nat) (s : St) (hr : Reachable n base s) (m : Msg) (r : Nat)
    (d : Evt) (hpos : 0 < s.cnt d) (hk : ((step s m).1.ring r).kick = some d)
    (h1 : ((step s m).1.ring r).ready = true) (h2 : ((step s m).1.ring r).enabled = true) :
    r ∈ (step s m).2.dispatched ∧ (step s m).1.cnt d = 0 := by
  obtain ⟨h, _⟩ := reachable_good hr
  have hci := control_inv h m
  obtain ⟨hst, hd⟩ := step_spec h m
  have hring : (step s m).1.ring = (Model.RingReg.control s m).1.ring := by rw [hst]
  rw [hring] at hk h1 h2
  have hrn := (hci.reg.kick_lt r d hk).2
  have hreg := (hci.reg.reg_iff d r).2 ⟨hrn, hk, h1, h2⟩
  have hcnt : 0 < (Model.RingReg.control s m).1.cnt d := by
    rw [control_cnt h m d]
    split <;> omega
  constructor
  · exact (hd r).2 ⟨d, hreg, hcnt⟩
  · rw [hst]
    show (if ((Model.RingReg.control s m).1.reg d).isSome then 0 else (Model.RingReg.control s m).1.cnt d) = 0
    rw [hreg]
    rfl

example :
    let s := (run (init 2 (fun r => 0x100 + r) false) [.setFeatures true, .setKick 0 true, .guestKick 0, .guestKick 0]).1
    s.cnt 0 = 2 ∧ (step s (.setEnable 0 true)).2.dispatched = [0] ∧ (step s (.setEnable 0 true)).1.cnt 0 = 0 := by decide

/-- the worker never stops serving (it never reads an empty counter), after any history -/
theorem worker_never_stops (n : Nat) (base : Nat → Nat) (s : St) (hr : Reachable n base s) : s.alive = true :=
  (reachable_good hr).1.alive

/-! ## F-C11-rekick: the pinned rule of `set_vring_kick` -/

/-- With the pinned rule, `SET_FEATURES(no bit 30) · SET_VRING_KICK(0,fd) · SET_VRING_KICK(0,fd)` leaves ring 0 ready and
enabled with descriptor 1 as its kick descriptor, but descriptor 1 is **not** registered: `registered_iff_active` is false
of the unmodified tree. -/
theorem rekick_not_registered_counterexample :
    let s := (run (init 2 (fun r => 0x100 + r) true) [.setFeatures false, .setKick 0 true, .setKick 0 true]).1
    (s.ring 0).ready = true ∧ (s.ring 0).enabled = true ∧ (s.ring 0).kick = some 1 ∧ s.reg 1 = none := by decide

/-- … and the descriptor that was replaced (and closed by the daemon) is still in the epoll set, because the front-end
holds its copy. -/
theorem rekick_stale_registration_counterexample :
    let s := (run (init 2 (fun r => 0x100 + r) true) [.setFeatures false, .setKick 0 true, .setKick 0 true]).1
    s.reg 0 = some 0 ∧ (s.ring 0).kick ≠ some 0 := by decide

/-- Consequence 1: a guest kick on the current descriptor of the started and enabled ring is not dispatched, while the
ring automaton delivers it. -/
theorem rekick_kick_lost_counterexample :
    (run (init 2 (fun r => 0x100 + r) true)
      [.setFeatures false, .setKick 0 true, .setKick 0 true, .guestKick 1]).2.map (·.dispatched) = [[], [], [], []] ∧
    (Spec.RingAutomaton.run (Spec.RingAutomaton.init 2 (fun r => 0x100 + r))
      [.setFeatures false, .setKick 0 true, .setKick 0 true, .guestKick 1]).map (fun p => p.2.map (·.dispatched))
      = some [[], [], [], [0]] := by decide

/-- Consequence 2: a guest kick on the replaced descriptor wakes the worker, which reads the *new* descriptor's empty
counter (`EAGAIN`) and stops serving. -/
theorem rekick_worker_stops_counterexample :
    (run (init 2 (fun r => 0x100 + r) true)
      [.setFeatures false, .setKick 0 true, .setKick 0 true, .guestKick 0]).1.alive = false := by decide

/-- Consequence 3: SET_VRING_KICK with the no-descriptor flag on a started ring leaves the closed descriptor registered;
a guest kick on it makes the worker call the handler over and over (nothing consumes the counter). -/
theorem nofd_rekick_storm_counterexample :
    ((run (init 2 (fun r => 0x100 + r) true)
      [.setFeatures false, .setKick 0 true, .setKick 0 false, .guestKick 0]).2.map (·.dispatched.length)) = [0, 0, 0, 16] := by
  decide

end Props.C11
