def hello := "world"
